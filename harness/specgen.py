"""Random system specs: structured, mostly valid, sharing chosen on purpose (DESIGN §5.1)."""
import copy
import math
import random
from fractions import Fraction

from harness.common import frac

ALT_UNITS = {
    "time": ["s", "min", "hour", "day", "year", "ms"],
    "data": ["B", "kB", "MB", "GB", "TB"],
    "mass": ["g", "kg", "tonne"],
    "power": ["W", "kW", "mW"],
    "bei": ["kWh/GB", "Wh/GB", "kWh/TB", "Wh/MB"],
    "ci": ["g/kWh", "kg/kWh", "kg/MWh"],
    "cpu": ["cpu_core"],
    "gpu": ["gpu"],
    "ratio": ["dimensionless", "percent"],
    "cf_per_cap": ["kg/TB", "g/GB", "kg/GB"],
    "power_per_cap": ["W/TB", "W/GB", "kW/TB"],
    "usage_fraction": ["hour/day", "dimensionless", "percent"],
    "power_per_gpu": ["W/gpu", "kW/gpu"],
    "ram_per_gpu": ["GB/gpu", "MB/gpu"],
    "cf_per_gpu": ["kg/gpu", "g/gpu"],
}

# parameter -> (family, canonical unit)
PARAM_FAMILY = {
    ("storages", "carbon_footprint_fabrication_per_storage_capacity"): ("cf_per_cap", "kg/TB"),
    ("storages", "power_per_storage_capacity"): ("power_per_cap", "W/TB"),
    ("storages", "lifespan"): ("time", "year"),
    ("storages", "idle_power"): ("power", "W"),
    ("storages", "storage_capacity"): ("data", "TB"),
    ("storages", "data_replication_factor"): ("ratio", "dimensionless"),
    ("storages", "data_storage_duration"): ("time", "hour"),
    ("storages", "base_storage_need"): ("data", "TB"),
    ("storages", "fixed_nb_of_instances"): ("ratio", "dimensionless"),
    ("servers", "carbon_footprint_fabrication"): ("mass", "kg"),
    ("servers", "power"): ("power", "W"),
    ("servers", "lifespan"): ("time", "year"),
    ("servers", "idle_power"): ("power", "W"),
    ("servers", "ram"): ("data", "GB"),
    ("servers", "compute"): ("cpu", "cpu_core"),
    ("servers", "power_usage_effectiveness"): ("ratio", "dimensionless"),
    ("servers", "average_carbon_intensity"): ("ci", "g/kWh"),
    ("servers", "server_utilization_rate"): ("ratio", "dimensionless"),
    ("servers", "base_ram_consumption"): ("data", "GB"),
    ("servers", "base_compute_consumption"): ("cpu", "cpu_core"),
    ("servers", "fixed_nb_of_instances"): ("ratio", "dimensionless"),
    ("servers", "gpu_power"): ("power_per_gpu", "W/gpu"),
    ("servers", "gpu_idle_power"): ("power_per_gpu", "W/gpu"),
    ("servers", "ram_per_gpu"): ("ram_per_gpu", "GB/gpu"),
    ("servers", "carbon_footprint_fabrication_per_gpu"): ("cf_per_gpu", "kg/gpu"),
    ("servers", "carbon_footprint_fabrication_without_gpu"): ("mass", "kg"),
    ("jobs", "data_transferred"): ("data", "kB"),
    ("jobs", "data_stored"): ("data", "kB"),
    ("jobs", "request_duration"): ("time", "s"),
    ("jobs", "compute_needed"): ("cpu", "cpu_core"),
    ("jobs", "ram_needed"): ("data", "MB"),
    ("steps", "user_time_spent"): ("time", "min"),
    ("devices", "carbon_footprint_fabrication"): ("mass", "kg"),
    ("devices", "power"): ("power", "W"),
    ("devices", "lifespan"): ("time", "year"),
    ("devices", "fraction_of_usage_time"): ("usage_fraction", "hour/day"),
    ("networks", "bandwidth_energy_intensity"): ("bei", "kWh/GB"),
    ("countries", "average_carbon_intensity"): ("ci", "g/kWh"),
}

ZONES = ["Europe/Paris", "UTC", "America/New_York", "Asia/Kolkata", "Asia/Kathmandu", "Australia/Sydney",
         "America/Sao_Paulo", "Asia/Tokyo", "Europe/London", "America/St_Johns", "Australia/Lord_Howe",
         "Pacific/Auckland", "Africa/Casablanca", "America/Los_Angeles", "Asia/Tehran", "Pacific/Apia"]

# (year, month, day) near DST transitions of common zones
DST_DATES = [(2025, 3, 29), (2025, 3, 30), (2025, 10, 25), (2025, 10, 26), (2025, 3, 8), (2025, 3, 9),
             (2025, 11, 1), (2025, 11, 2), (2025, 4, 5), (2025, 10, 4), (2024, 2, 28), (2024, 12, 31)]


def Q(m, unit):
    return {"m": float(m), "u": unit}


def gen_decimal(rng, lo, hi, nd=3):
    return round(rng.uniform(lo, hi), nd)


def hours_of(q, unit_info):
    scale, _ = unit_info(q["u"])
    return frac(q["m"]) * scale / 3600


def safe_duration(q, unit_info, eps=Fraction(1, 10 ** 9)):
    """a duration is *safe* for floor/ceil when its value in hours is an exact integer expressed in
    hours, or farther than eps from any integer (discontinuity guard at generation time)."""
    h = hours_of(q, unit_info)
    fr = h - math.floor(h)
    if fr == 0:
        return q["u"] == "hour"
    return eps < fr < 1 - eps


def gen_spec(rng, unit_info, *, n_patterns=None, max_len=40, allow_gpu=False, allow_onprem=True,
             allow_fixed=True, allow_delete=False, allow_dumps=False, random_units=True,
             zones=None, same_window=False, allow_multi_hour_jobs=True, single_zone=False,
             corner_topologies=True):
    """Draw a random well-formed system spec."""
    zones = zones or ZONES
    if single_zone:
        zones = [rng.choice(zones)]
    nst = rng.choice([1, 1, 2])
    nsv = rng.choice([1, 2, 2, 3])
    njb = rng.choice([1, 2, 3, 4])
    nstep = rng.choice([1, 2, 3, 4])
    nuj = rng.choice([1, 1, 2, 3])
    ndev = rng.choice([1, 2, 3])
    nnet = rng.choice([1, 1, 2])
    nco = rng.choice([1, 2, 3])
    nup = n_patterns or rng.choice([1, 2, 2, 3, 4])
    nuj = min(nuj, nup)

    def unit_for(kind, param):
        fam, canon = PARAM_FAMILY[(kind, param)]
        if not random_units:
            return canon
        return rng.choice(ALT_UNITS[fam]) if rng.random() < 0.6 else canon

    def q(kind, param, canon_value):
        fam, canon = PARAM_FAMILY[(kind, param)]
        unit = unit_for(kind, param)
        if unit == canon:
            return Q(canon_value, unit)
        sc, _ = unit_info(canon)
        su, _ = unit_info(unit)
        return Q(float(frac(canon_value) * sc / su), unit)

    def duration(kind, param, lo_h, hi_h):
        for _ in range(50):
            r = rng.random()
            if lo_h > 0 and ((kind == "jobs" and r < 0.12) or (kind == "steps" and r < 0.04)):
                # very short events: milliseconds and below (legal, and a classic place for "is it zero?" slips)
                v = Q(rng.choice([0.05, 0.4, 2, 7.5, 40]), "ms")
                if safe_duration(v, unit_info):
                    return v
            if r < 0.25:
                v = Q(rng.randint(max(0, math.ceil(lo_h)), max(1, math.floor(hi_h))), "hour")
            else:
                hval = gen_decimal(rng, lo_h, hi_h, 4)
                v = q(kind, param, float(frac(hval) * 3600 / unit_info(PARAM_FAMILY[(kind, param)][1])[0]))
            if v["m"] >= 0 and safe_duration(v, unit_info):
                return v
        return Q(1, "hour")

    spec = {k: {} for k in ["storages", "servers", "jobs", "steps", "journeys", "devices", "networks",
                            "countries", "patterns"]}
    # period of the model (hours) — decides whether storage dumps occur
    for i in range(nst):
        dur_h = rng.choice([3, 7, 12]) + rng.choice([0, 0.5]) if allow_dumps and rng.random() < 0.5 \
            else gen_decimal(rng, 2000, 50000, 1)
        spec["storages"][f"st{i}"] = {
            "carbon_footprint_fabrication_per_storage_capacity": q("storages", "carbon_footprint_fabrication_per_storage_capacity", gen_decimal(rng, 20, 200)),
            "power_per_storage_capacity": q("storages", "power_per_storage_capacity", gen_decimal(rng, 0.5, 5)),
            "lifespan": q("storages", "lifespan", gen_decimal(rng, 2, 8)),
            "idle_power": q("storages", "idle_power", rng.choice([0, gen_decimal(rng, 0.01, 1)])),
            "storage_capacity": q("storages", "storage_capacity", rng.choice([1e-6, 1e-5, 1e-3, 1])),
            "data_replication_factor": Q(rng.choice([1, 2, 3]), "dimensionless"),
            "data_storage_duration": q("storages", "data_storage_duration", dur_h),
            "base_storage_need": q("storages", "base_storage_need", rng.choice([0, 0, gen_decimal(rng, 0.001, 2)])),
            "fixed_nb_of_instances": None,
        }
    for i in range(nsv):
        gpu = allow_gpu and rng.random() < 0.25
        st = f"st{rng.randrange(nst)}" if i >= nst else f"st{i}"
        # one storage can be linked to one server only
        used = {s["storage"] for s in spec["servers"].values()}
        if st in used:
            free = [f"st{k}" for k in range(nst) if f"st{k}" not in used]
            if not free:
                nm = f"st{len(spec['storages'])}"
                spec["storages"][nm] = copy.deepcopy(spec["storages"]["st0"])
                free = [nm]
            st = free[0]
        stype = rng.choice(["autoscaling", "serverless", "on-premise"] if allow_onprem else ["autoscaling", "serverless"])
        if gpu:
            sv = {"cls": "GPUServer", "server_type": stype,
                  "gpu_power": q("servers", "gpu_power", gen_decimal(rng, 100, 500)),
                  "gpu_idle_power": q("servers", "gpu_idle_power", gen_decimal(rng, 10, 80)),
                  "ram_per_gpu": q("servers", "ram_per_gpu", gen_decimal(rng, 20, 100)),
                  "carbon_footprint_fabrication_per_gpu": q("servers", "carbon_footprint_fabrication_per_gpu", gen_decimal(rng, 50, 300)),
                  "average_carbon_intensity": q("servers", "average_carbon_intensity", gen_decimal(rng, 20, 700)),
                  "compute": Q(rng.choice([1, 2, 4, 8]), "gpu"),
                  "carbon_footprint_fabrication_without_gpu": q("servers", "carbon_footprint_fabrication_without_gpu", gen_decimal(rng, 500, 3000)),
                  "lifespan": q("servers", "lifespan", gen_decimal(rng, 2, 8)),
                  "power_usage_effectiveness": Q(gen_decimal(rng, 1, 2), "dimensionless"),
                  "server_utilization_rate": q("servers", "server_utilization_rate", gen_decimal(rng, 0.5, 1)),
                  "base_compute_consumption": Q(rng.choice([0, 0, gen_decimal(rng, 0.01, 0.4)]), "gpu"),
                  "base_ram_consumption": q("servers", "base_ram_consumption", rng.choice([0, 0, gen_decimal(rng, 0.1, 5)])),
                  "storage": st, "fixed_nb_of_instances": None}
        else:
            sv = {"cls": "Server", "server_type": stype,
                  "carbon_footprint_fabrication": q("servers", "carbon_footprint_fabrication", gen_decimal(rng, 100, 1000)),
                  "power": q("servers", "power", gen_decimal(rng, 100, 500)),
                  "lifespan": q("servers", "lifespan", gen_decimal(rng, 2, 8)),
                  "idle_power": q("servers", "idle_power", gen_decimal(rng, 10, 90)),
                  "ram": q("servers", "ram", gen_decimal(rng, 16, 256)),
                  "compute": Q(rng.choice([4, 8, 16, 24, 64]), "cpu_core"),
                  "power_usage_effectiveness": Q(gen_decimal(rng, 1, 2), "dimensionless"),
                  "average_carbon_intensity": q("servers", "average_carbon_intensity", gen_decimal(rng, 20, 700)),
                  "server_utilization_rate": q("servers", "server_utilization_rate", gen_decimal(rng, 0.5, 1)),
                  "base_ram_consumption": q("servers", "base_ram_consumption", rng.choice([0, 0, gen_decimal(rng, 0.1, 5)])),
                  "base_compute_consumption": Q(rng.choice([0, 0, gen_decimal(rng, 0.01, 2)]), "cpu_core"),
                  "storage": st, "fixed_nb_of_instances": None}
        spec["servers"][f"sv{i}"] = sv
    servers = list(spec["servers"])
    for i in range(njb):
        svn = servers[i] if i < len(servers) else rng.choice(servers)
        gpu = spec["servers"][svn]["cls"] == "GPUServer"
        hi = 3.2 if allow_multi_hour_jobs and rng.random() < 0.3 else 0.05
        spec["jobs"][f"j{i}"] = {
            "cls": "Job", "server": svn,
            "data_transferred": q("jobs", "data_transferred", gen_decimal(rng, 1, 5000)),
            "data_stored": q("jobs", "data_stored", gen_decimal(rng, 1, 2000) if rng.random() < 0.85 else 0),
            "request_duration": duration("jobs", "request_duration", 0.0001, hi),
            "compute_needed": Q(gen_decimal(rng, 0.01, 2), "gpu" if gpu else "cpu_core"),
            "ram_needed": q("jobs", "ram_needed", gen_decimal(rng, 1, 900)),
        }
    jobs = list(spec["jobs"])
    for i in range(nstep):
        k = rng.choice([0, 1, 1, 2, 3])
        js = [rng.choice(jobs) for _ in range(k)]
        if i < len(jobs) and jobs[i] not in js:
            js.append(jobs[i])
        spec["steps"][f"s{i}"] = {
            "user_time_spent": duration("steps", "user_time_spent", 0, 2.5) if rng.random() < 0.4
            else duration("steps", "user_time_spent", 0.001, 0.4),
            "jobs": js}
    steps = list(spec["steps"])
    # every job must be reachable: put leftover jobs in the last step
    placed = {j for s in spec["steps"].values() for j in s["jobs"]}
    for j in jobs:
        if j not in placed:
            spec["steps"][steps[-1]]["jobs"].append(j)
    for i in range(nuj):
        k = rng.choice([1, 2, 3])
        ss = [rng.choice(steps) for _ in range(k)]
        ss = list(dict.fromkeys(ss))  # a step object appears once per journey
        spec["journeys"][f"uj{i}"] = {"uj_steps": ss}
    journeys = list(spec["journeys"])
    used_steps = {s for j in spec["journeys"].values() for s in j["uj_steps"]}
    for s in steps:
        if s not in used_steps:
            spec["journeys"][journeys[-1]]["uj_steps"].append(s)
    for i in range(ndev):
        spec["devices"][f"d{i}"] = {
            "carbon_footprint_fabrication": q("devices", "carbon_footprint_fabrication", gen_decimal(rng, 10, 300)),
            "power": q("devices", "power", gen_decimal(rng, 0.5, 80)),
            "lifespan": q("devices", "lifespan", gen_decimal(rng, 1, 8)),
            "fraction_of_usage_time": q("devices", "fraction_of_usage_time", gen_decimal(rng, 0.5, 24))}
    for i in range(nnet):
        spec["networks"][f"n{i}"] = {"bandwidth_energy_intensity": q("networks", "bandwidth_energy_intensity", gen_decimal(rng, 0.01, 0.5))}
    for i in range(nco):
        spec["countries"][f"c{i}"] = {"average_carbon_intensity": q("countries", "average_carbon_intensity", gen_decimal(rng, 20, 700)),
                                      "timezone": rng.choice(zones)}
    devices, nets, cos = list(spec["devices"]), list(spec["networks"]), list(spec["countries"])
    base_date = rng.choice(DST_DATES) if rng.random() < 0.3 else (2025, rng.randint(1, 12), rng.randint(1, 28))
    base_len = rng.randint(3, max_len)
    base_hour = rng.randrange(24)
    for i in range(nup):
        uj = journeys[i] if i < len(journeys) else rng.choice(journeys)
        if same_window:
            date, ln, hh = base_date, base_len, base_hour
        else:
            date = base_date if rng.random() < 0.6 else (2025, rng.randint(1, 12), rng.randint(1, 28))
            ln, hh = rng.randint(3, max_len), rng.randrange(24)
        vals = [0.0 if rng.random() < 0.15 else gen_decimal(rng, 0.5, 500, 2) for _ in range(ln)]
        if all(v == 0 for v in vals):
            vals[0] = 1.5
        nd = rng.choice([1, 1, 2])
        spec["patterns"][f"p{i}"] = {
            "usage_journey": uj, "devices": rng.sample(devices, min(nd, len(devices))),
            "network": rng.choice(nets), "country": rng.choice(cos),
            "hourly_usage_journey_starts": {"start": [date[0], date[1], date[2], hh], "values": vals,
                                            "unit": "dimensionless"}}
    spec["system"] = {"name": "sys", "usage_patterns": list(spec["patterns"])}
    if allow_delete and rng.random() < 0.5:
        # a deleting job: negative data_stored with a base need large enough
        j = rng.choice(jobs)
        ds = spec["jobs"][j]["data_stored"]
        ds["m"] = -abs(ds["m"]) if ds["m"] != 0 else -1.0
        stn = spec["servers"][spec["jobs"][j]["server"]]["storage"]
        spec["storages"][stn]["base_storage_need"] = Q(50, "TB")
    if allow_fixed and rng.random() < 0.3:
        svn = rng.choice(servers)
        if spec["servers"][svn]["server_type"] == "on-premise":
            spec["servers"][svn]["fixed_nb_of_instances"] = Q(rng.choice([50000, 100000]), "dimensionless")
    if allow_fixed and rng.random() < 0.2:
        stn = rng.choice(list(spec["storages"]))
        spec["storages"][stn]["fixed_nb_of_instances"] = Q(rng.choice([10 ** 9, 10 ** 10]), "dimensionless")
    if corner_topologies:
        # legal corners that ordinary models rarely contain (each found by a seeded change that the plain generator missed)
        if rng.random() < 0.2:
            # a job installed on a used server but not (yet) placed in any journey step
            src = rng.choice(jobs)
            spec["jobs"][f"j{len(spec['jobs'])}"] = copy.deepcopy(spec["jobs"][src])
        if rng.random() < 0.1:
            # a journey in which the user spends no time at all (machine-to-machine calls)
            ujn = rng.choice(journeys)
            others = {s_ for jn, j in spec["journeys"].items() if jn != ujn for s_ in j["uj_steps"]}
            if not (set(spec["journeys"][ujn]["uj_steps"]) & others):
                for s_ in spec["journeys"][ujn]["uj_steps"]:
                    spec["steps"][s_]["user_time_spent"] = Q(0, "hour")
        if rng.random() < 0.25:
            # distinct objects carrying equal values (values compare and hash by value in the library)
            kind, param = rng.choice([("countries", "average_carbon_intensity"), ("networks", "bandwidth_energy_intensity"),
                                      ("devices", "power"), ("jobs", "data_transferred"), ("servers", "average_carbon_intensity")])
            objs_ = list(spec[kind].values())
            for o in objs_[1:]:
                if param in o and param in objs_[0]:
                    o[param] = copy.deepcopy(objs_[0][param])
    return spec


def reexpress(spec, rng, unit_info):
    """The same model with every quantity input re-expressed in another compatible unit (C10)."""
    out = copy.deepcopy(spec)
    for kind in ["storages", "servers", "jobs", "steps", "devices", "networks", "countries"]:
        for name, o in out[kind].items():
            for p, v in o.items():
                if isinstance(v, dict) and "m" in v and (kind, p) in PARAM_FAMILY:
                    fam, _ = PARAM_FAMILY[(kind, p)]
                    alts = [x for x in ALT_UNITS[fam] if x != v["u"]]
                    if p == "compute" or p == "compute_needed" or p == "base_compute_consumption":
                        continue
                    if not alts:
                        continue
                    nu = rng.choice(alts)
                    so, _ = unit_info(v["u"])
                    sn, _ = unit_info(nu)
                    o[p] = {"m": float(frac(v["m"]) * so / sn), "u": nu}
    return out


def spec_is_safe(spec, unit_info):
    """Discontinuity guard at generation time: every duration that goes through floor/ceil in the
    code (request durations, storage durations, cumulated step times, journey durations) is either
    an exact integer number of hours written in hours or farther than 1e-6 h from an integer."""
    eps = Fraction(1, 10 ** 9)

    def ok_sum(qs):
        h = sum((hours_of(q, unit_info) for q in qs), Fraction(0))
        fr = h - math.floor(h)
        if fr == 0:
            return all(q["u"] == "hour" and float(q["m"]).is_integer() for q in qs)
        return eps < fr < 1 - eps

    for j in spec["jobs"].values():
        if not safe_duration(j["request_duration"], unit_info) or j["request_duration"]["m"] <= 0:
            return False
    for s in spec["storages"].values():
        if not safe_duration(s["data_storage_duration"], unit_info):
            return False
    for uj in spec["journeys"].values():
        ts = [spec["steps"][s]["user_time_spent"] for s in uj["uj_steps"]]
        for i in range(1, len(ts) + 1):
            if not ok_sum(ts[:i]):
                return False
    return True


def gen_safe_spec(rng, unit_info, **kw):
    for _ in range(200):
        sp = gen_spec(rng, unit_info, **kw)
        if spec_is_safe(sp, unit_info):
            return sp
    raise RuntimeError("could not draw a safe spec")


SOURCE_POOL = [None, None, "__none__", ["user data", None], ["Hardware reference database", "https://hardware-db.example.org/servers/web-frontend"],
               ["Hardware reference database", "https://hardware-db.example.org/servers/database"],
               ["Internal measurement", "https://wiki.example.org/measurements#2024"], ["Internal measurement", None],
               # names are free text: years and versions in parentheses, signs, brackets, dots
               ["ADEME (Base Carbone v23)", "https://base-empreinte.example.org/v23"], ["RTE (eco2mix 2023)", None],
               ["Vendor data sheet [rev. B+]", None], ["LCA study 2.1 * draft?", "https://lca.example.org/study?id=2.1"]]


def with_random_sources(spec, rng):
    """the same model with inputs attributed to a handful of sources, some sharing a name but not a link"""
    out = copy.deepcopy(spec)
    for kind in ["storages", "servers", "jobs", "steps", "devices", "networks", "countries"]:
        for o in out[kind].values():
            for p, v in o.items():
                if isinstance(v, dict) and "m" in v:
                    src = rng.choice(SOURCE_POOL)
                    if src:
                        v["src"] = src
    return out


def plant_corners(spec, rng):
    """the same kind of model with the legal corners made certain: two usage patterns on one network in two
    countries of equal carbon intensity, a journey in which no time is spent, a job not placed in any step"""
    out = copy.deepcopy(spec)
    pats = list(out["patterns"])
    if len(pats) >= 2 and rng.random() < 0.3:
        # two usage patterns on two different networks that carry the same name (names are free text, not keys)
        p0, p1 = pats[0], pats[1]
        n0 = out["patterns"][p0]["network"]
        if out["patterns"][p1]["network"] == n0:
            nm = f"n{len(out['networks'])}"
            out["networks"][nm] = copy.deepcopy(out["networks"][n0])
            bei = out["networks"][nm]["bandwidth_energy_intensity"]
            out["networks"][nm]["bandwidth_energy_intensity"] = Q(round(bei["m"] * 1.9, 9), bei["u"])
            out["patterns"][p1]["network"] = nm
        out["networks"][out["patterns"][p1]["network"]]["display_name"] = out["networks"][n0].get("display_name", n0)
    elif len(pats) >= 2:
        p0, p1 = pats[0], pats[1]
        out["patterns"][p1]["network"] = out["patterns"][p0]["network"]
        if out["patterns"][p1]["country"] == out["patterns"][p0]["country"]:
            nm = f"c{len(out['countries'])}"
            out["countries"][nm] = copy.deepcopy(out["countries"][out["patterns"][p0]["country"]])
            out["patterns"][p1]["country"] = nm
        out["countries"][out["patterns"][p1]["country"]]["average_carbon_intensity"] = copy.deepcopy(
            out["countries"][out["patterns"][p0]["country"]]["average_carbon_intensity"])
    ujn = out["patterns"][pats[-1]]["usage_journey"]
    others = {s_ for jn, j in out["journeys"].items() if jn != ujn for s_ in j["uj_steps"]}
    if not (set(out["journeys"][ujn]["uj_steps"]) & others):
        for s_ in out["journeys"][ujn]["uj_steps"]:
            out["steps"][s_]["user_time_spent"] = Q(0, "hour")
    # a usage pattern whose users own two devices of the same model (the same object listed twice)
    if rng.random() < 0.5 and out["patterns"][pats[0]]["devices"]:
        out["patterns"][pats[0]]["devices"] = out["patterns"][pats[0]]["devices"] + [out["patterns"][pats[0]]["devices"][0]]
    # … or two different devices that carry the same name (names are free text)
    elif len(out["devices"]) >= 1:
        p0d = out["patterns"][pats[0]]["devices"]
        if len(p0d) < 2:
            nm = f"d{len(out['devices'])}"
            out["devices"][nm] = copy.deepcopy(out["devices"][p0d[0]])
            out["devices"][nm]["power"] = Q(round(out["devices"][nm]["power"]["m"] * 1.7, 6), out["devices"][nm]["power"]["u"])
            out["devices"][nm]["carbon_footprint_fabrication"] = Q(round(out["devices"][nm]["carbon_footprint_fabrication"]["m"] * 0.6, 6), out["devices"][nm]["carbon_footprint_fabrication"]["u"])
            out["patterns"][pats[0]]["devices"] = p0d + [nm]
            p0d = out["patterns"][pats[0]]["devices"]
        out["devices"][p0d[1]]["display_name"] = out["devices"][p0d[0]].get("display_name", p0d[0])
    # two servers / storages / jobs / countries / usage patterns that carry the same name
    for kind in ("servers", "storages", "jobs", "countries", "patterns"):
        names_ = [n_ for n_ in out[kind] if not str(n_).endswith(("_out", "_free", "_idle"))]
        if len(names_) >= 2 and rng.random() < 0.3:
            a_, b_ = names_[0], names_[-1]
            out[kind][b_]["display_name"] = out[kind][a_].get("display_name", a_)
    # a journey that goes through one of its steps twice
    uj0 = out["patterns"][pats[0]]["usage_journey"]
    if rng.random() < 0.6 and len(out["journeys"][uj0]["uj_steps"]) < 5:
        out["journeys"][uj0]["uj_steps"] = out["journeys"][uj0]["uj_steps"] + [rng.choice(out["journeys"][uj0]["uj_steps"])]
    # a usage pattern that is not part of the system (yet): its own journey, steps, jobs and network, the servers of the system
    if rng.random() < 0.4:
        p_src = pats[0]
        tag = "_out"
        pn_new = f"p{len(out['patterns'])}{tag}"
        src = out["patterns"][p_src]
        uj_new = src["usage_journey"] + tag
        steps_new = []
        for s_ in out["journeys"][src["usage_journey"]]["uj_steps"]:
            sn_new = s_ + tag
            if sn_new not in out["steps"]:
                jobs_new = []
                for j_ in out["steps"][s_]["jobs"]:
                    jn_new = j_ + tag
                    if jn_new not in out["jobs"]:
                        out["jobs"][jn_new] = copy.deepcopy(out["jobs"][j_])
                    jobs_new.append(jn_new)
                out["steps"][sn_new] = dict(copy.deepcopy(out["steps"][s_]), jobs=jobs_new)
            steps_new.append(sn_new)
        out["journeys"][uj_new] = {"uj_steps": steps_new}
        net_new = src["network"] + tag
        out["networks"][net_new] = copy.deepcopy(out["networks"][src["network"]])
        # … its own devices and country too: an edit of an object it shared with the system would compute it as a side
        # effect, and it would then load the shared servers although it is not part of the system (finding D27)
        devs_new = []
        for d_ in src["devices"]:
            if d_ + tag not in out["devices"]:
                out["devices"][d_ + tag] = copy.deepcopy(out["devices"][d_])
            devs_new.append(d_ + tag)
        co_new = src["country"] + tag
        out["countries"][co_new] = copy.deepcopy(out["countries"][src["country"]])
        out["patterns"][pn_new] = dict(copy.deepcopy(src), usage_journey=uj_new, network=net_new, devices=devs_new, country=co_new)
    # a storage that no server uses (yet)
    if rng.random() < 0.5:
        st0_ = next(iter(out["storages"]))
        nm_ = f"st{len(out['storages'])}_free"
        out["storages"][nm_] = dict(copy.deepcopy(out["storages"][st0_]), fixed_nb_of_instances=None)
        for prm, k_ in (("carbon_footprint_fabrication_per_storage_capacity", 3), ("power_per_storage_capacity", 2)):
            q_ = out["storages"][nm_][prm]
            out["storages"][nm_][prm] = {"m": q_["m"] * k_ + 1, "u": q_["u"]}      # another model of storage
    # a job on a server (and storage) that the system does not use yet, and a step without jobs to receive it
    if rng.random() < 0.5:
        sv0 = next(iter(out["servers"]))
        stn, svn, jn_ = f"st{len(out['storages'])}", f"sv{len(out['servers'])}", f"j{len(out['jobs'])}"
        out["storages"][stn] = copy.deepcopy(out["storages"][out["servers"][sv0]["storage"]])
        out["storages"][stn]["fixed_nb_of_instances"] = None
        out["servers"][svn] = dict(copy.deepcopy(out["servers"][sv0]), storage=stn, fixed_nb_of_instances=None)
        j0 = next((j for j, o in out["jobs"].items() if o["server"] == sv0 and o["data_stored"]["m"] >= 0), None)
        if j0 is not None:
            out["jobs"][jn_] = dict(copy.deepcopy(out["jobs"][j0]), server=svn)
            sn_ = f"s{len(out['steps'])}_free"
            out["steps"][sn_] = {"user_time_spent": Q(0, "hour"), "jobs": []}
            uj0_ = out["patterns"][pats[0]]["usage_journey"]
            out["journeys"][uj0_]["uj_steps"] = out["journeys"][uj0_]["uj_steps"] + [sn_]
        else:
            del out["storages"][stn], out["servers"][svn]
    placed = {j for s_ in out["steps"].values() for j in s_["jobs"]}
    if all(j in placed for j in out["jobs"]):
        src = rng.choice(list(out["jobs"]))
        out["jobs"][f"j{len(out['jobs'])}"] = copy.deepcopy(out["jobs"][src])
    return out


def unshare_jobs(spec):
    """the same model with every usage pattern given its own copy of its journey, steps and jobs (servers, storages,
    networks, countries and devices stay shared): no job is reachable from two usage patterns"""
    out = copy.deepcopy(spec)
    seen_journeys = set()
    for pn in list(out["patterns"]):
        p = out["patterns"][pn]
        ujn = p["usage_journey"]
        jobs_here = [j for s_ in out["journeys"][ujn]["uj_steps"] for j in out["steps"][s_]["jobs"]]
        clash = ujn in seen_journeys or any(
            j in [jj for q_ in seen_journeys for s_ in out["journeys"][q_]["uj_steps"] for jj in out["steps"][s_]["jobs"]] for j in jobs_here)
        if clash:
            tag = f"_{pn}"
            new_steps = []
            for s_ in out["journeys"][ujn]["uj_steps"]:
                ns = s_ + tag
                st = copy.deepcopy(out["steps"][s_])
                new_jobs = []
                for j in st["jobs"]:
                    nj = j + tag
                    if nj not in out["jobs"]:
                        out["jobs"][nj] = copy.deepcopy(out["jobs"][j])
                    new_jobs.append(nj)
                st["jobs"] = new_jobs
                out["steps"][ns] = st
                new_steps.append(ns)
            nuj = ujn + tag
            out["journeys"][nuj] = {"uj_steps": new_steps}
            p["usage_journey"] = nuj
            ujn = nuj
        seen_journeys.add(ujn)
    return out


DST_PAIRS = [("Europe/London", "Africa/Tunis", (2025, 10, 25)), ("Europe/Paris", "Africa/Lagos", (2025, 10, 25)),
             ("America/New_York", "America/Bogota", (2025, 3, 8)), ("Europe/Lisbon", "Africa/Casablanca", (2025, 10, 25))]


def plant_dst_pair(spec, rng):
    """two usage patterns with the same local window, in a zone that changes its clock during the window and in a zone
    with the same offset at the start that does not: their UTC series start together and have the same number of
    hours, but one of them skips (or merges) an hour"""
    out = copy.deepcopy(spec)
    pats = list(out["patterns"])
    if len(pats) < 2:
        return out
    za, zb, date = rng.choice(DST_PAIRS)
    p0, p1 = pats[0], pats[1]
    if out["patterns"][p1]["country"] == out["patterns"][p0]["country"]:
        nm = f"c{len(out['countries'])}"
        out["countries"][nm] = copy.deepcopy(out["countries"][out["patterns"][p0]["country"]])
        out["patterns"][p1]["country"] = nm
    out["countries"][out["patterns"][p0]["country"]]["timezone"] = za
    out["countries"][out["patterns"][p1]["country"]]["timezone"] = zb
    for q_ in pats[2:]:
        if out["patterns"][q_]["country"] in (out["patterns"][p0]["country"], out["patterns"][p1]["country"]):
            continue
    n = rng.randint(14, 40)
    hh = rng.randrange(12, 24)
    for pn in (p0, p1):
        vals = [0.0 if rng.random() < 0.1 else gen_decimal(rng, 0.5, 500, 2) for _ in range(n)]
        out["patterns"][pn]["hourly_usage_journey_starts"] = {"start": [date[0], date[1], date[2], hh], "values": vals, "unit": "dimensionless"}
    return out

"""Operation histories on a live real system, mirrored on the spec (the model's inputs)."""
import copy
import random

from harness.common import watchdog, err_enum, frac
from harness import realsys, specgen
from harness.realsys import u, SourceValue, SourceObject, mkq, mk_hourly

LIST_ATTRS = {"steps": "jobs", "journeys": "uj_steps", "patterns": "devices"}
LINK_ATTRS = {"jobs": ["server"], "patterns": ["usage_journey", "network", "country"]}
LINK_TARGET_KIND = {"server": "servers", "usage_journey": "journeys", "network": "networks", "country": "countries",
                    "jobs": "jobs", "uj_steps": "steps", "devices": "devices", "usage_patterns": "patterns"}


def kind_of(spec, name):
    if name == "__system__":
        return "system"
    for k in realsys.KINDS:
        if name in spec[k]:
            return k
    raise KeyError(name)


class Live:
    """a real system plus the spec describing its *current* inputs and links"""

    def __init__(self, spec):
        self.spec = copy.deepcopy(spec)
        self.spec.pop("order", None)
        self.rs = realsys.RealSystem(self.spec)
        self.log = []

    def obj(self, name):
        return self.rs.objs[name]

    def spec_entry(self, kind, name):
        return self.spec["system"] if kind == "system" else self.spec[kind][name]

    def new_value(self, op):
        """the Python value to assign for a set-style op"""
        t = op["op"]
        if t == "setq":
            return mkq(op["value"]) if op["value"] is not None else None
        if t == "sethourly":
            h = dict(self.spec["patterns"][op["name"]]["hourly_usage_journey_starts"])
            h["values"] = op["values"]
            if "start" in op:
                h["start"] = op["start"]
            return mk_hourly(h)
        if t == "setlink":
            if op.get("via_wrapper"):
                # the value as read from another object that already points to the target (`job_1.server = job_2.server`):
                # what is assigned is that object's wrapper of the target, not the target itself
                kind = op.get("kind") or kind_of(self.spec, op["name"])
                holder = next((n for n, o in self.spec[kind].items() if n != op["name"] and o.get(op["attr"]) == op["target"]), None)
                if holder is not None:
                    return getattr(self.obj(holder), op["attr"])
            return self.obj(op["target"])
        if t == "setlist":
            return [self.obj(x) for x in op["items"]]
        if t == "settype":
            return realsys.server_type_obj(op["value"])
        if t == "settz":
            import pytz
            return SourceObject(pytz.timezone(op["value"]))
        raise ValueError(t)

    def attr_of(self, op):
        t = op["op"]
        if t == "setq":
            return op["param"]
        if t == "sethourly":
            return "hourly_usage_journey_starts"
        if t in ("setlink", "setlist", "listop"):
            return op["attr"]
        if t == "settype":
            return "server_type"
        if t == "settz":
            return "timezone"
        raise ValueError(t)

    def mirror(self, op):
        """apply an accepted op to the spec"""
        t = op["op"]
        if t == "group":
            for c in op["changes"]:
                self.mirror(c)
            return
        kind = op.get("kind") or kind_of(self.spec, op["name"])
        e = self.spec_entry(kind, op["name"])
        if t == "setq":
            e[op["param"]] = copy.deepcopy(op["value"])
        elif t == "sethourly":
            e["hourly_usage_journey_starts"]["values"] = list(op["values"])
            if "start" in op:
                e["hourly_usage_journey_starts"]["start"] = list(op["start"])
        elif t == "setlink":
            e[op["attr"]] = op["target"]
        elif t == "setlist":
            if kind == "system":
                # usage patterns that were part of the system and have been taken out of it (trigger of finding D27)
                gone = [x for x in e[op["attr"]] if x not in op["items"]]
                if gone:
                    e["removed"] = sorted(set(e.get("removed", [])) | set(gone))
            e[op["attr"]] = list(op["items"])
        elif t == "settype":
            e["server_type"] = op["value"]
        elif t == "settz":
            e["timezone"] = op["value"]
        elif t == "listop":
            lst = e[op["attr"]]
            apply_list_method(lst, op["method"], op.get("args", []))
        elif t == "recompute":
            pass
        else:
            raise ValueError(t)

    def apply(self, op, timeout=30):
        """run the op on the real system; ('ok', None) or ('err', enum). The spec follows accepted ops."""
        from efootprint.abstract_modeling_classes.modeling_update import ModelingUpdate
        try:
            with watchdog(timeout):
                t = op["op"]
                if t == "group":
                    changes = []
                    for c in op["changes"]:
                        o = self.obj(c["name"])
                        changes.append([getattr(o, self.attr_of(c)), self.new_value(c)])
                    ModelingUpdate(changes)
                elif t == "recompute":
                    self.obj(op["name"]).compute_calculated_attributes()
                elif t == "listop":
                    lst = getattr(self.obj(op["name"]), op["attr"])
                    real_list_method(self, lst, op["method"], op.get("args", []), self.obj(op["name"]), op["attr"])
                else:
                    setattr(self.obj(op["name"]), self.attr_of(op), self.new_value(op))
        except Exception as e:  # noqa
            self.log.append((op, "err", err_enum(e)))
            return "err", err_enum(e)
        self.mirror(op)
        self.log.append((op, "ok", None))
        return "ok", None

    def fresh(self):
        """a system freshly built from the current inputs"""
        return realsys.RealSystem(self.spec)

    def reachable_names(self, rs=None):
        rs = rs or self.rs
        reach = {o.id for o in rs.system.all_linked_objects} | {rs.system.id}
        return {n for n, o in rs.objs.items() if o.id in reach}


def apply_list_method(lst, method, args):
    """Python list semantics (the reference for list-valued links)"""
    if method == "append":
        lst.append(args[0])
    elif method == "insert":
        lst.insert(args[0], args[1])
    elif method == "extend":
        lst.extend(args[0])
    elif method == "iadd":
        lst += args[0]
    elif method == "imul":
        lst *= args[0]
    elif method == "pop":
        lst.pop(*args)
    elif method == "remove":
        lst.remove(args[0])
    elif method == "clear":
        lst.clear()
    elif method == "delitem":
        del lst[args[0]]
    elif method == "setitem":
        lst[args[0]] = args[1]
    else:
        raise ValueError(method)


ITERABLES = {0: "list", 1: "generator", 2: "map", 3: "iterator"}


def as_iterable(objs, flavour):
    """the same elements as a list or as an iterable that can be read only once"""
    return objs if flavour == 0 else (x for x in objs) if flavour == 1 else map(lambda x: x, objs) if flavour == 2 else iter(tuple(objs))


def real_list_method(live, lst, method, args, owner, attr):
    o = live.obj
    if method == "append":
        lst.append(o(args[0]))
    elif method == "insert":
        lst.insert(args[0], o(args[1]))
    elif method == "extend":
        # a list, or any other iterable a Python list accepts: a generator, `map`, an iterator (readable once)
        lst.extend(as_iterable([o(x) for x in args[0]], args[1] if len(args) > 1 else 0))
    elif method == "iadd":
        new = getattr(owner, attr)
        new += as_iterable([o(x) for x in args[0]], args[1] if len(args) > 1 else 0)
        setattr(owner, attr, new)          # what `owner.attr += [...]` does
    elif method == "imul":
        new = getattr(owner, attr)
        new *= args[0]
        setattr(owner, attr, new)
    elif method == "pop":
        lst.pop(*args)
    elif method == "remove":
        lst.remove(o(args[0]))
    elif method == "clear":
        lst.clear()
    elif method == "delitem":
        del lst[args[0]]
    elif method == "setitem":
        lst[args[0]] = o(args[1])
    else:
        raise ValueError(method)


# ---------------------------------------------------------------------------------------------
# predicates used to separate the domain of the proved statements from the recorded findings
# ---------------------------------------------------------------------------------------------
def patterns_of_job(spec):
    out = {j: set() for j in spec["jobs"]}
    for pn, p in spec["patterns"].items():
        for s in spec["journeys"][p["usage_journey"]]["uj_steps"]:
            for j in spec["steps"][s]["jobs"]:
                out[j].add(pn)
    return out


def has_shared_job(spec):
    """some job is reachable from two or more usage patterns (trigger of findings D2 / D13)"""
    return any(len(v) >= 2 for v in patterns_of_job(spec).values())


def journey_jobs(spec, uj):
    return [j for s in spec["journeys"][uj]["uj_steps"] for j in spec["steps"][s]["jobs"]]


# ---------------------------------------------------------------------------------------------
# operation generator
# ---------------------------------------------------------------------------------------------
def gen_numeric_edit(rng, spec, kinds=None):
    kinds = kinds or ["jobs", "servers", "storages", "networks", "devices", "steps", "countries"]
    kind = rng.choice([k for k in kinds if spec[k]])
    name = rng.choice(list(spec[kind]))
    params = [p for p, v in spec[kind][name].items() if isinstance(v, dict) and "m" in v and (kind, p) in specgen.PARAM_FAMILY
              and p != "fixed_nb_of_instances"]
    # parameters whose change can push the model into a raising rule or a ceil discontinuity are edited gently
    p = rng.choice(params)
    old = spec[kind][name][p]
    fam, _ = specgen.PARAM_FAMILY[(kind, p)]
    factor = rng.choice([0.5, 0.8, 1.25, 1.5, 2.0])
    if p in ("request_duration", "user_time_spent", "data_storage_duration"):
        # keep durations away from floor/ceil discontinuities
        for _ in range(20):
            cand = {"m": round(old["m"] * rng.choice([0.6, 0.9, 1.3, 1.7]) + rng.choice([0, 0.013]), 6), "u": old["u"]}
            if rng.random() < 0.3:
                # the new duration written in another unit than the one the object was built with
                nu = rng.choice([a for a in ("s", "min", "hour", "day") if a != old["u"]])
                cand = {"m": round(float(frac(cand["m"]) * realsys.unit_info(old["u"])[0] / realsys.unit_info(nu)[0]), 6), "u": nu}
            if cand["m"] > 0 and specgen.safe_duration(cand, realsys.unit_info):
                return {"op": "setq", "kind": kind, "name": name, "param": p, "value": cand}
        return None
    if p in ("server_utilization_rate",):
        new = {"m": min(1.0, round(old["m"] * rng.choice([0.9, 1.05]), 6)), "u": old["u"]}
    elif p in ("compute", "ram", "ram_per_gpu"):
        new = {"m": old["m"] * rng.choice([1.5, 2.0]), "u": old["u"]}
    elif p in ("base_ram_consumption", "base_compute_consumption"):
        new = {"m": old["m"] * rng.choice([0.5, 0.9]), "u": old["u"]}
    elif p == "data_stored":
        new = {"m": abs(old["m"]) * factor + 0.5, "u": old["u"]}
    elif rng.random() < 0.08 and p in ("data_transferred", "power", "carbon_footprint_fabrication", "bandwidth_energy_intensity", "average_carbon_intensity") \
            and len(specgen.ALT_UNITS.get(fam, [])) > 1:
        # the same number in another unit (150 MB -> 150 kB): an edit like any other
        new = {"m": old["m"], "u": rng.choice([a for a in specgen.ALT_UNITS[fam] if a != old["u"]])}
    else:
        alt = rng.choice(specgen.ALT_UNITS[fam]) if rng.random() < 0.3 and p not in ("compute_needed",) else old["u"]
        so, _ = realsys.unit_info(old["u"])
        sn, _ = realsys.unit_info(alt)
        new = {"m": float(frac(old["m"]) * frac(factor) * so / sn), "u": alt}
    if old["m"] == 0:
        new = {"m": rng.choice([0.25, 1.5]), "u": old["u"]}
        if p in ("base_ram_consumption", "base_compute_consumption", "base_storage_need", "idle_power"):
            new["m"] = rng.choice([0.001, 0.01])
    if new == old or frac(new["m"]) * realsys.unit_info(new["u"])[0] == frac(old["m"]) * realsys.unit_info(old["u"])[0]:
        return None       # assigning a physically equal value is skipped by the engine by design
    return {"op": "setq", "kind": kind, "name": name, "param": p, "value": new}


def gen_hourly_edit(rng, spec):
    pn = rng.choice(list(spec["patterns"]))
    old = spec["patterns"][pn]["hourly_usage_journey_starts"]["values"]
    new = [0.0 if rng.random() < 0.1 else round(rng.uniform(0.5, 400), 2) for _ in old]
    if new == old:
        return None
    return {"op": "sethourly", "name": pn, "values": new}


def inside(spec):
    """the spec without the objects of a usage pattern that is not part of the system (names tagged `_out` by
    specgen.plant_corners): linking them to objects of the system is outside the domain (finding D27)"""
    return {k: ({n: o for n, o in v.items() if not str(n).endswith("_out")} if isinstance(v, dict) and k != "system" else v)
            for k, v in spec.items()}


def gen_link_edit(rng, spec):
    """re-point a link or replace / mutate a list of linked objects, keeping the system well formed"""
    spec = inside(spec)
    choice = rng.choice(["job.server", "pattern.network", "pattern.country", "pattern.usage_journey", "pattern.devices",
                         "step.jobs", "journey.uj_steps", "listop"])
    if choice == "job.server":
        j = rng.choice(list(spec["jobs"]))
        cands = [s for s in spec["servers"] if s != spec["jobs"][j]["server"]]
        if not cands:
            return None
        return {"op": "setlink", "kind": "jobs", "name": j, "attr": "server", "target": rng.choice(cands), "via_wrapper": rng.random() < 0.5}
    if choice.startswith("pattern."):
        attr = choice.split(".")[1]
        pn = rng.choice(list(spec["patterns"]))
        if attr == "devices":
            devs = list(spec["devices"])
            items = rng.sample(devs, rng.randint(1, len(devs)))
            if items == spec["patterns"][pn]["devices"]:
                return None
            return {"op": "setlist", "kind": "patterns", "name": pn, "attr": "devices", "items": items}
        kind = LINK_TARGET_KIND[attr]
        cands = [x for x in spec[kind] if x != spec["patterns"][pn][attr]]
        if not cands:
            return None
        return {"op": "setlink", "kind": "patterns", "name": pn, "attr": attr, "target": rng.choice(cands), "via_wrapper": rng.random() < 0.5}
    if choice == "step.jobs":
        s = rng.choice(list(spec["steps"]))
        jobs = list(spec["jobs"])
        items = [rng.choice(jobs) for _ in range(rng.randint(0, 3))]
        if items == spec["steps"][s]["jobs"]:
            return None
        return {"op": "setlist", "kind": "steps", "name": s, "attr": "jobs", "items": items}
    if choice == "journey.uj_steps":
        uj = rng.choice(list(spec["journeys"]))
        steps = list(spec["steps"])
        items = rng.sample(steps, rng.randint(1, len(steps)))
        if items == spec["journeys"][uj]["uj_steps"]:
            return None
        return {"op": "setlist", "kind": "journeys", "name": uj, "attr": "uj_steps", "items": items}
    # list mutators that really change the content
    kind = rng.choice(["steps", "journeys", "patterns"])
    name = rng.choice(list(spec[kind]))
    attr = LIST_ATTRS[kind]
    cur = spec[kind][name][attr]
    pool = list(spec[LINK_TARGET_KIND[attr]])
    m = rng.choice(["append", "insert", "extend", "pop", "setitem", "delitem", "iadd"])
    unique = attr != "jobs"
    fresh = [x for x in pool if not (unique and x in cur)]
    if m == "append" and fresh:
        return {"op": "listop", "kind": kind, "name": name, "attr": attr, "method": "append", "args": [rng.choice(fresh)]}
    if m == "insert" and fresh:
        return {"op": "listop", "kind": kind, "name": name, "attr": attr, "method": "insert", "args": [rng.randint(0, len(cur)), rng.choice(fresh)]}
    if m in ("extend", "iadd") and fresh:
        # `extend` also with an iterable that can be read only once (a generator, `map`, an iterator)
        return {"op": "listop", "kind": kind, "name": name, "attr": attr, "method": m,
                "args": [[rng.choice(fresh)], rng.choice([0, 0, 1, 2, 3]) if m == "extend" else 0]}
    if m == "pop" and len(cur) > 1:
        return {"op": "listop", "kind": kind, "name": name, "attr": attr, "method": "pop", "args": [rng.randrange(len(cur))]}
    if m == "delitem" and len(cur) > 1:
        return {"op": "listop", "kind": kind, "name": name, "attr": attr, "method": "delitem", "args": [rng.randrange(len(cur))]}
    if m == "setitem" and cur and fresh:
        i = rng.randrange(len(cur))
        x = rng.choice(fresh)
        if x != cur[i]:
            return {"op": "listop", "kind": kind, "name": name, "attr": attr, "method": "setitem", "args": [i, x]}
    return None

#!/venv/bin/python
"""Entry point of every registered check.

    /venv/bin/python check.py <Cxx> [--tier quick|thorough] [--replay FILE]

Stages (DESIGN §6): regenerate tables → build + audit the property's Lean theorems →
correspondence suites (model vs real code) → known-finding witnesses → direct oracle /
failing-input search on the real code → verdict, evidence, exit code.
Exit 0: held on everything explored.  Exit 1: a `VIOLATION property=<id> replay=<path>` line was
printed.  Exit 2: infrastructure failure (never a VIOLATION line)."""
import argparse
import hashlib
import importlib
import json
import os
import sys
import time
import traceback

HERE = os.path.dirname(os.path.abspath(__file__))
sys.path.insert(0, HERE)
os.environ.setdefault("EFP_REPO", "/repo")
sys.path.insert(0, os.environ["EFP_REPO"])

from harness.common import VERIF  # noqa: E402


def load_known():
    p = os.path.join(VERIF, "known_findings.json")
    if not os.path.exists(p):
        return []
    with open(p) as f:
        return json.load(f)["findings"]


def jsonable(x):
    from fractions import Fraction
    if isinstance(x, Fraction):
        return str(x)
    if isinstance(x, (set, tuple)):
        return [jsonable(y) for y in x]
    if isinstance(x, dict):
        return {str(k): jsonable(v) for k, v in x.items()}
    if isinstance(x, list):
        return [jsonable(y) for y in x]
    if isinstance(x, (str, int, float, bool)) or x is None:
        return x
    return repr(x)


def write_replay(prop, payload):
    d = os.path.join(VERIF, "replays", prop)
    os.makedirs(d, exist_ok=True)
    blob = json.dumps(jsonable(payload), sort_keys=True, indent=1)
    h = hashlib.sha1(blob.encode()).hexdigest()[:12]
    p = os.path.join(d, f"{h}.json")
    with open(p, "w") as f:
        f.write(blob)
    return p


def main():
    ap = argparse.ArgumentParser()
    ap.add_argument("prop")
    ap.add_argument("--tier", default=os.environ.get("VERIF_TIER", "quick"))
    ap.add_argument("--replay", default=None)
    ap.add_argument("--no-lean", action="store_true", help="skip the proof stage (development only)")
    args = ap.parse_args()
    prop = args.prop.upper()
    tier = "thorough" if args.tier == "thorough" else "quick"
    seed = int(os.environ.get("VERIF_SEED", "0"))
    t0 = time.time()
    workdir = os.path.join(VERIF, ".work", f"{prop}_{os.getpid()}")
    os.makedirs(workdir, exist_ok=True)
    try:
        mod = importlib.import_module(f"harness.props.{prop.lower()}")
    except ModuleNotFoundError:
        print(f"no check for {prop}")
        return 2
    from harness import lean_stage
    from harness.runner import Ctx

    ctx = Ctx(prop=prop, tier=tier, seed=seed, workdir=workdir)
    if args.replay:
        with open(args.replay) as f:
            payload = json.load(f)
        ok, msg = mod.replay(ctx, payload)
        print(msg)
        if not ok:
            print(f"VIOLATION property={prop} replay={args.replay}")
            return 1
        return 0

    # ---- proof stage -------------------------------------------------------------------
    if args.no_lean:
        stage = {"obligations": [{"name": "skipped", "status": "ok", "axioms": [], "detail": ""}], "build_ok": True,
                 "log": "", "tables_changed": [], "wall_s": 0, "checker_cmd": "skipped"}
    else:
        stage = lean_stage.run_stage(prop, workdir, thorough=(tier == "thorough"))
    broken_obl = [o for o in stage["obligations"] if o["status"] != "ok"]

    # ---- correspondence, known findings, oracle ----------------------------------------
    try:
        res = mod.run(ctx, intensify=bool(broken_obl))
    except Exception as e:  # noqa
        import traceback
        tb = traceback.format_exc()
        if ("lean driver failed" in tb or "TimeoutError" in tb or "Hang" in type(e).__name__
                or isinstance(e, (OSError, MemoryError, EOFError)) or "BrokenProcessPool" in tb):
            raise                      # infrastructure (driver, watchdog): exit code 2, never a verdict
        # the harness could not even observe the code (an attribute the real objects always have is missing, a call that
        # never raises now raises …): the correspondence no longer runs, which is reported as such — on the unchanged tree
        # this never happens (every sweep exercises these paths)
        path = write_replay(prop, {"property": prop, "kind": "correspondence-harness-cannot-observe-the-code", "exception": type(e).__name__,
                                   "message": str(e)[:500], "traceback": tb[-3000:], "seed": seed, "tier": tier})
        print(f"VIOLATION property={prop} replay={path} no-failing-input-found")
        return 1
    # if a correspondence suite disagrees, run the search once more, intensified
    broken_suites = [s for s in res.suites if s["disagreements"]]
    if broken_suites and not res.violations and not broken_obl and hasattr(mod, "search"):
        extra = mod.search(ctx)
        res.violations += extra.violations
        res.evaluations += extra.evaluations

    known = [k for k in load_known() if k["property"] == prop and k.get("status", "known") == "known"]
    known_sigs = {k["signature"]: k for k in known}
    unknown = [v for v in res.violations if v["signature"] not in known_sigs]
    seen_known = {}
    for v in res.violations:
        if v["signature"] in known_sigs:
            seen_known.setdefault(v["signature"], v)
    for sig, v in seen_known.items():
        print(f"KNOWN-FINDING: property={prop} {known_sigs[sig]['what']}")

    rc = 0
    replay_paths = []
    if unknown:
        # group by signature, report each once
        bysig = {}
        for v in unknown:
            bysig.setdefault(v["signature"], v)
        for sig, v in bysig.items():
            path = write_replay(prop, {"property": prop, "kind": "failing-input", "signature": sig,
                                       "detail": v.get("detail"), "replay": v.get("replay"), "seed": seed,
                                       "tier": tier})
            replay_paths.append(path)
            print(f"VIOLATION property={prop} replay={path}")
        rc = 1
    elif broken_obl or broken_suites:
        payload = {"property": prop, "kind": "no-failing-input-found", "seed": seed, "tier": tier,
                   "broken_obligations": broken_obl,
                   "broken_suites": [{"suite": s["name"], "disagreements": s["disagreements"][:5]} for s in broken_suites],
                   "build_log_tail": stage["log"][-3000:] if broken_obl else ""}
        path = write_replay(prop, payload)
        replay_paths.append(path)
        for o in broken_obl[:3]:
            print(f"  broken obligation: {o['name']}: {o['detail'][:200]}")
        for s_ in broken_suites:
            for d in s_["disagreements"][:3]:
                print(f"  disagreement in {s_['name']}: {str(d.get('why'))[:400]}")
        print(f"VIOLATION property={prop} replay={path} no-failing-input-found")
        rc = 1

    # ---- evidence ----------------------------------------------------------------------
    n_obl = len(stage["obligations"])
    n_dis = sum(1 for o in stage["obligations"] if o["status"] == "ok")
    axioms = sorted({a for o in stage["obligations"] for a in o["axioms"]})
    evidence = {
        "property_id": prop, "tier": tier, "seed": seed, "level": "proof",
        "coverage": {
            "obligations": n_obl, "discharged": n_dis,
            "checker_cmd": stage["checker_cmd"],
            "trusted_base": ["Lean 4 kernel" + (" + leanchecker re-check" if tier == "thorough" else ""),
                             "axioms used by the property theorems: " + (", ".join(axioms) if axioms else "none"),
                             "table translator harness/extract_schema.py",
                             "correspondence harness (suites: " + ", ".join(s["name"] for s in res.suites) + ")",
                             ] + list(getattr(mod, "TRUSTED", [])),
            "theorems": [{"name": o["name"], "status": o["status"], "axioms": o["axioms"]} for o in stage["obligations"]],
            "tables_regenerated_changed": stage["tables_changed"],
            "evaluations": res.evaluations,
            "distinct_nontrivial": res.distinct_nontrivial,
            "rule": res.rule,
            "samples": jsonable(res.samples[:3]),
            "suites": [{"name": s["name"], "cases": s["cases"], "observations": s.get("observations", 0),
                        "disagreements": len(s["disagreements"]), "inconclusive": s.get("inconclusive", 0),
                        "distribution": s.get("distribution", {})} for s in res.suites],
            "traces_validated_against_impl": sum(s["cases"] for s in res.suites),
            "disagreements_checked": sum(len(s["disagreements"]) for s in res.suites),
            "oracle": res.oracle_info,
            "known_findings_seen": sorted(seen_known),
            "replays": replay_paths,
            "exhaustive": False,
        },
        "assumptions": list(getattr(mod, "ASSUMPTIONS", [])),
        "wall_s": round(time.time() - t0, 2),
        "violations": len({v["signature"] for v in unknown}) + (1 if (rc == 1 and not unknown) else 0),
    }
    # (development runs that skip the proof stage do not overwrite the evidence of a full run)
    evdir = os.path.join(VERIF, ".work", "evidence-no-lean") if args.no_lean else os.path.join(VERIF, "evidence")
    os.makedirs(evdir, exist_ok=True)
    with open(os.path.join(evdir, f"{prop}.json"), "w") as f:
        json.dump(jsonable(evidence), f, indent=1)
    try:
        import shutil
        shutil.rmtree(workdir, ignore_errors=True)
    except Exception:  # noqa
        pass
    print(f"{prop} {tier} seed={seed}: obligations {n_dis}/{n_obl}, suites "
          + ", ".join(f"{s['name']}:{s['cases']}c/{len(s['disagreements'])}d" for s in res.suites)
          + f", oracle evaluations {res.evaluations}, unknown violations {len(unknown)}, "
          f"known seen {len(seen_known)}, {evidence['wall_s']}s")
    return rc


if __name__ == "__main__":
    try:
        sys.exit(main())
    except SystemExit:
        raise
    except Exception:  # infrastructure failure
        traceback.print_exc()
        sys.exit(2)
